(* Model of server.rs: the two GET handlers, applied to the already percent-decoded path segments
   (routing and decoding are warp's; covered by the correspondence on the real binary only). *)
From Coq Require Import String.
From Ruler Require Import Bytes Show Base62 AList World Concrete.

Definition FILES : bytes := [102; 105; 108; 101; 115].   (* "files" *)
Definition RULES : bytes := [114; 117; 108; 101; 115].   (* "rules" *)

Inductive response :=
| R200 (body : bytes)
| R404.

Definition respond (rd : rdir cticket) (segments : list bytes) : response :=
  match segments with
  | [kind; s] =>
      if bytes_eqb kind FILES then
        match decode62 s with
        | Err _ => R404
        | Ok t =>
            match rd_cache rd with
            | None => R404
            | Some c => match alookup c_teqb c t with
                        | Some f => R200 (f_content f)
                        | None => R404
                        end
            end
        end
      else R404
  | [kind; r; s] =>
      if bytes_eqb kind RULES then
        match decode62 r, decode62 s with
        | Ok rt, Ok st =>
            match rd_hist rd with
            | None => R404        (* no history directory: read_rule_history gives an empty history *)
            | Some hs =>
                match alookup c_teqb hs rt with
                | Some (SF_ok h) =>
                    match alookup c_teqb h st with
                    | Some outs => R200 (join_with [NL] (map (fun o => encode62 (fs_t o)) outs))
                    | None => R404
                    end
                | Some SF_bad => R404
                | None => R404
                end
            end
        | _, _ => R404
        end
      else R404
  | _ => R404
  end.

Definition show_response (r : response) : bytes :=
  match r with
  | R200 b => paren [lit "200"; show_bytes b]
  | R404 => lit "404"
  end.
