(* Model of ticket.rs TicketFactory: file, directory and rule tickets as SHA-256 over exact preimages. *)
From Ruler Require Export Bytes Sha256.

(* from_file: a 256-byte read loop feeding a streaming digest; the digest sees the concatenation *)
Definition file_ticket_chunked (chunks : list bytes) : bytes := sha256 (concat chunks).
Definition file_ticket (content : bytes) : bytes := sha256 content.

(* from_directory: sha256( join "\n" listed-paths ++ child tickets in listing order ) *)
Definition dir_preimage (names : list bytes) (tickets : list bytes) : bytes :=
  join_with [NL] names ++ concat tickets.

Inductive tree :=
| TFile (content : bytes)
| TDir (entries : list (bytes * tree)).   (* (path as listed, subtree), in listing order *)

Fixpoint tree_ticket (t : tree) : bytes :=
  match t with
  | TFile c => file_ticket c
  | TDir es =>
      let fix go (l : list (bytes * tree)) : list bytes :=
        match l with
        | [] => []
        | (_, sub) :: r => tree_ticket sub :: go r
        end in
      sha256 (dir_preimage (map fst es) (go es))
  end.

(* Ticket::from_strings *)
Definition rule_preimage (targets sources command : list bytes) : bytes :=
  let sec (l : list bytes) := flat_map (fun s => s ++ [NL]) l ++ [NL; COLON; NL] in
  sec targets ++ sec sources ++ sec command.

(* wait_for_sources_ticket: hash of the concatenated source tickets *)
Definition list_ticket (tickets : list bytes) : bytes := sha256 (concat tickets).
