(* The thread / channel protocol of build.rs as a labelled transition system.
   Workers 0..n-1 are the spawned threads in spawn order (leaves first, then rule nodes in plan order);
   edge e = (sender, receiver) is the e-th channel created by ChannelPack::new. A worker receives on its
   in-edges in creation order (wait_for_sources_ticket reads ALL of them, then drops the receivers),
   does its work (hash / resolve / run the command, or nothing after a cancel), sends one packet on each
   out-edge in creation order (ticket or cancel), and finishes. Main spawns all workers in order, then
   joins them in order. The only nondeterminism is which enabled event happens next. *)
From Coq Require Export List Arith Bool Lia.
Export ListNotations.
From Ruler Require Import Bytes TopoSort.
Local Close Scope N_scope.
Local Open Scope nat_scope.

Record pgraph := mk_pgraph { pg_n : nat; pg_edges : list (nat * nat) }.

(* senders come before receivers in spawn order (the plan is topologically sorted) *)
Definition wf_graph (g : pgraph) : Prop :=
  Forall (fun e => fst e < snd e /\ snd e < pg_n g) (pg_edges g).

Fixpoint indices_where {A} (f : A -> bool) (l : list A) (i : nat) : list nat :=
  match l with
  | [] => []
  | x :: r => if f x then i :: indices_where f r (S i) else indices_where f r (S i)
  end.

Definition in_edges (g : pgraph) (t : nat) : list nat :=
  indices_where (fun e => Nat.eqb (snd e) t) (pg_edges g) 0.
Definition out_edges (g : pgraph) (t : nat) : list nat :=
  indices_where (fun e => Nat.eqb (fst e) t) (pg_edges g) 0.

Inductive phase :=
| NotSpawned
| Receiving (k : nat)      (* has read its first k in-edges *)
| Sending (k : nat)        (* work done; has sent on its first k out-edges *)
| Done.

Record pstate := mk_pstate {
  ps_phase : list phase;     (* per worker *)
  ps_sent : list bool;       (* per edge: the packet has been sent *)
  ps_recvd : list bool;      (* per edge: the packet has been received *)
  ps_main : nat              (* < n: workers spawned so far; n + k: workers joined so far *)
}.

Definition init_pstate (g : pgraph) : pstate :=
  mk_pstate (repeat NotSpawned (pg_n g)) (repeat false (length (pg_edges g)))
            (repeat false (length (pg_edges g))) 0.

Inductive event :=
| ESpawn (t : nat)
| ERecv (t e : nat)
| EWork (t : nat)
| ESend (t e : nat)
| EFinish (t : nat)
| EJoin (t : nat).

Fixpoint set_nth {A} (l : list A) (i : nat) (x : A) : list A :=
  match l, i with
  | [], _ => []
  | _ :: r, O => x :: r
  | y :: r, S j => y :: set_nth r j x
  end.

Definition phase_of (s : pstate) (t : nat) : phase := nth t (ps_phase s) Done.
Definition set_phase (s : pstate) (t : nat) (p : phase) : pstate :=
  mk_pstate (set_nth (ps_phase s) t p) (ps_sent s) (ps_recvd s) (ps_main s).

(* the receiving end of an edge is alive until its owner has read all its in-edges;
   the sending end until its owner has sent on it *)
Definition receiver_alive (g : pgraph) (s : pstate) (e : nat) : bool :=
  match phase_of s (snd (nth e (pg_edges g) (0, 0))) with
  | NotSpawned | Receiving _ => true
  | _ => false
  end.

Definition sender_alive (g : pgraph) (s : pstate) (e : nat) : bool :=
  let t := fst (nth e (pg_edges g) (0, 0)) in
  match phase_of s t with
  | NotSpawned | Receiving _ => true
  | Sending k => existsb (Nat.eqb e) (skipn k (out_edges g t))
  | Done => false
  end.

(* None: the event is not enabled (or would be a channel error) in this state *)
Definition pstep (g : pgraph) (s : pstate) (ev : event) : option pstate :=
  match ev with
  | ESpawn t =>
      if Nat.eqb (ps_main s) t && Nat.ltb t (pg_n g) then
        Some (mk_pstate (set_nth (ps_phase s) t (Receiving 0)) (ps_sent s) (ps_recvd s) (S (ps_main s)))
      else None
  | ERecv t e =>
      match phase_of s t with
      | Receiving k =>
          if Nat.eqb (nth k (in_edges g t) (length (pg_edges g))) e && nth e (ps_sent s) false
             && negb (nth e (ps_recvd s) true)
          then Some (mk_pstate (set_nth (ps_phase s) t (Receiving (S k))) (ps_sent s)
                               (set_nth (ps_recvd s) e true) (ps_main s))
          else None
      | _ => None
      end
  | EWork t =>
      match phase_of s t with
      | Receiving k => if Nat.eqb k (length (in_edges g t)) then Some (set_phase s t (Sending 0)) else None
      | _ => None
      end
  | ESend t e =>
      match phase_of s t with
      | Sending k =>
          if Nat.ltb e (length (pg_edges g)) && Nat.eqb (nth k (out_edges g t) (length (pg_edges g))) e
             && receiver_alive g s e
          then Some (mk_pstate (set_nth (ps_phase s) t (Sending (S k))) (set_nth (ps_sent s) e true)
                               (ps_recvd s) (ps_main s))
          else None
      | _ => None
      end
  | EFinish t =>
      match phase_of s t with
      | Sending k => if Nat.eqb k (length (out_edges g t)) then Some (set_phase s t Done) else None
      | _ => None
      end
  | EJoin t =>
      if Nat.eqb (ps_main s) (pg_n g + t) && Nat.ltb t (pg_n g) then
        match phase_of s t with
        | Done => Some (mk_pstate (ps_phase s) (ps_sent s) (ps_recvd s) (S (ps_main s)))
        | _ => None
        end
      else None
  end.

(* replay of an event list; Some final state iff every event was enabled when it happened *)
Fixpoint run_events (g : pgraph) (s : pstate) (evs : list event) : option pstate :=
  match evs with
  | [] => Some s
  | ev :: rest => match pstep g s ev with
                  | Some s' => run_events g s' rest
                  | None => None
                  end
  end.

(* index of the first event that is not enabled, if any *)
Fixpoint first_bad (g : pgraph) (s : pstate) (evs : list event) (i : nat) : option nat :=
  match evs with
  | [] => None
  | ev :: rest => match pstep g s ev with
                  | Some s' => first_bad g s' rest (S i)
                  | None => Some i
                  end
  end.

Definition finished (g : pgraph) (s : pstate) : bool :=
  Nat.eqb (ps_main s) (2 * pg_n g).

Inductive reachable (g : pgraph) : pstate -> Prop :=
| reach_init : reachable g (init_pstate g)
| reach_step s ev s' : reachable g s -> pstep g s ev = Some s' -> reachable g s'.

(* a worker that would fail on a closed channel: it is about to send but the receiver is gone, or it
   waits on an edge whose sender is gone without having sent *)
Definition send_would_fail (g : pgraph) (s : pstate) (t : nat) : Prop :=
  exists k e, phase_of s t = Sending k /\ nth_error (out_edges g t) k = Some e /\ receiver_alive g s e = false.
Definition recv_would_fail (g : pgraph) (s : pstate) (t : nat) : Prop :=
  exists k e, phase_of s t = Receiving k /\ nth_error (in_edges g t) k = Some e /\
              nth e (ps_sent s) false = false /\ sender_alive g s e = false.

(* ---- the graph of a plan: leaves are workers 0..L-1, node j is worker L + j; one edge per
   (node, source) pair, created node by node, source by source ---- *)
Definition graph_of_pack (p : node_pack) : pgraph :=
  let nl := length (p_leaves p) in
  let edges :=
    flat_map (fun jn =>
                map (fun si => match si with
                               | Leaf i => (i, nl + fst jn)
                               | Pair i _ => (nl + i, nl + fst jn)
                               end) (n_source_indices (snd jn)))
             (combine (seq 0 (length (p_nodes p))) (p_nodes p)) in
  mk_pgraph (nl + length (p_nodes p)) edges.

(* clean(): one worker per node, no channels *)
Definition clean_graph_of_pack (p : node_pack) : pgraph := mk_pgraph (length (p_nodes p)) [].
