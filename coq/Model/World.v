(* The state ruler works on, and the primitive file operations (as MemSys / RealSystem perform them).
   Generic in the type T of tickets (hashes): theorems instantiate T with free symbolic hashes
   (collision-free by construction), the executable model with SHA-256 values. *)
From Ruler Require Export Bytes AList RuleSyntax.

Record file := mk_file { f_content : bytes; f_mtime : N; f_exec : bool }.

Inductive clock_mode := Fine | Coarse.

(* a state file that is present: decodable to v, or damaged *)
Inductive sf (A : Type) := SF_ok (v : A) | SF_bad.
Arguments SF_ok {A} v.
Arguments SF_bad {A}.

Section World.
  Variable T : Type.

  Record fstate := mk_fstate { fs_t : T; fs_mtime : N; fs_x : bool }.

  Definition hentry := (T * list fstate)%type.          (* sources ticket -> remembered target states *)
  Definition history := list hentry.
  Definition table := list (bytes * fstate).             (* path -> last observed file state *)

  Record rdir := mk_rdir {
    rd_exists : bool;                                    (* the ruler directory itself *)
    rd_cache : option (list (T * file));                 (* None: cache directory absent *)
    rd_hist : option (list (T * sf history));            (* None: history directory absent; keyed by rule identity *)
    rd_table : option (sf table)                         (* None: current_file_states absent *)
  }.

  Record world := mk_world {
    w_files : list (bytes * file);                       (* everything outside the ruler directory *)
    w_rd : rdir;
    w_clock : N;
    w_mode : clock_mode
  }.

  Definition no_rdir : rdir := mk_rdir false None None None.

  Definition set_files (w : world) (fs : list (bytes * file)) : world :=
    mk_world fs (w_rd w) (w_clock w) (w_mode w).
  Definition set_rd (w : world) (rd : rdir) : world :=
    mk_world (w_files w) rd (w_clock w) (w_mode w).

  Definition fget (w : world) (p : bytes) : option file := alookup bytes_eqb (w_files w) p.

  (* the time stamp a write gets, and the clock afterwards *)
  Definition stamp (w : world) : N * world :=
    match w_mode w with
    | Fine => (w_clock w + 1, mk_world (w_files w) (w_rd w) (w_clock w + 1) Fine)
    | Coarse => (w_clock w, w)
    end.

  Definition tick (w : world) : world :=
    mk_world (w_files w) (w_rd w) (w_clock w + 1000) (w_mode w).

  (* create or truncate-and-write: new content and time, permission bits of an existing file kept *)
  Definition write_file (w : world) (p : bytes) (c : bytes) : world :=
    let (t, w1) := stamp w in
    let x := match fget w1 p with Some f => f_exec f | None => false end in
    set_files w1 (ainsert bytes_eqb (w_files w1) p (mk_file c t x)).

  Definition remove_file (w : world) (p : bytes) : world :=
    set_files w (aremove bytes_eqb (w_files w) p).

  (* mv p q by the user: the file record itself (content, modification time, executable bit) moves; q is replaced *)
  Definition move_file (w : world) (p q : bytes) : world :=
    match fget w p with
    | Some f => set_files w (ainsert bytes_eqb (aremove bytes_eqb (w_files w) p) q f)
    | None => w
    end.

  Definition set_exec (w : world) (p : bytes) (x : bool) : world :=
    match fget w p with
    | Some f => set_files w (ainsert bytes_eqb (w_files w) p (mk_file (f_content f) (f_mtime f) x))
    | None => w
    end.
End World.

Arguments mk_fstate {T}.
Arguments fs_t {T}.
Arguments fs_mtime {T}.
Arguments fs_x {T}.
Arguments mk_rdir {T}.
Arguments rd_exists {T}.
Arguments rd_cache {T}.
Arguments rd_hist {T}.
Arguments rd_table {T}.
Arguments mk_world {T}.
Arguments w_files {T}.
Arguments w_rd {T}.
Arguments w_clock {T}.
Arguments w_mode {T}.
Arguments no_rdir {T}.
Arguments set_files {T}.
Arguments set_rd {T}.
Arguments fget {T}.
Arguments stamp {T}.
Arguments tick {T}.
Arguments write_file {T}.
Arguments remove_file {T}.
Arguments set_exec {T}.
Arguments move_file {T}.
