(* Model of build.rs build() under an ARBITRARY order of the worker threads' work steps.
   Build.build is the serial schedule (workers run to completion in spawn order). Here the main thread's
   spawn phase (blobs taken from the table and rule histories read, in spawn order) is followed by the
   workers' work steps in any order `ord` (a list of worker positions in spawn order: leaves first, then
   rule nodes), each step atomic (one handle_leaf / wait-for-sources + handle_rule), followed by main's
   join loop in spawn order exactly as in Build.build. By Model/Protocol.v (C03, C05) every complete
   execution of the thread protocol performs each worker's work step once, after the work steps of all
   its producers: `valid_order`. What is NOT represented is interleaving INSIDE a work step.
   Proofs/SchedFacts.v: `build_ord` with the spawn order is Build.build; for every valid order the
   verdict and every workspace file's content are the same (C06), given by the from-scratch specification. *)
From Ruler Require Export Bytes AList RuleSyntax Parser TopoSort World Cmdlang Work Build Ops.
Local Open Scope nat_scope.

Section Sched.
  Variable T : Type.
  Variable teqb : T -> T -> bool.
  Variable hc : bytes -> T.
  Variable hl : list T -> T.
  Variable hr : rule -> T.

  Notation world := (world T).
  Notation fstate := (fstate T).
  Notation table := (table T).
  Notation history := (history T).
  Notation work_result := (work_result T).
  Notation thread_result := (thread_result T).

  (* ---- spawn phase (main thread) ---- *)

  (* the history of every rule node, read before any worker runs; None: some file is unreadable *)
  Definition read_histories (w : world) (ns : list node) : option (list history) :=
    all_some (map (fun n => read_history T teqb hr w (n_rule n)) ns).

  (* ---- work phase ---- *)

  Record sstate := mk_ss {
    ss_world : world;
    ss_sent : list (option (option (list T)));                 (* per worker: None = has not worked yet; Some None = cancel *)
    ss_res : list (option (option rule * thread_result));     (* per worker *)
    ss_commands : list bytes                                   (* script lines in execution order *)
  }.

  Fixpoint set_nth {A} (k : nat) (v : A) (l : list A) : list A :=
    match l, k with
    | [], _ => []
    | _ :: r, O => v :: r
    | x :: r, S k' => x :: set_nth k' v r
    end.

  (* what a dependent finds on one of its in-edges. None: cancel (or the producer has not sent yet, which a
     valid order excludes) *)
  Definition sreceived (nleaves : nat) (sent : list (option (option (list T)))) (si : source_index) : option T :=
    match si with
    | Leaf i => match nth i sent None with Some (Some (t :: _)) => Some t | _ => None end
    | Pair i sub => match nth (nleaves + i) sent None with Some (Some ts) => nth_error ts sub | _ => None end
    end.

  (* the workers whose packets worker k waits for *)
  Definition deps (pack : node_pack) (k : nat) : list nat :=
    let nl := length (p_leaves pack) in
    if Nat.ltb k nl then []
    else match nth_error (p_nodes pack) (k - nl) with
         | None => []
         | Some n => map (fun si => match si with Leaf i => i | Pair i _ => nl + i end) (n_source_indices n)
         end.

  Definition has_worked (st : sstate) (k : nat) : bool :=
    match nth k (ss_res st) None with Some _ => true | None => false end.

  (* worker k's work step. A worker that has already worked, is out of range, or still waits for a packet
     does nothing (only invalid orders contain such steps). *)
  Definition work_step (pack : node_pack) (blobs : list (blob T)) (hists : list history)
             (st : sstate) (k : nat) : sstate :=
    let nl := length (p_leaves pack) in
    if has_worked st k then st
    else if negb (forallb (has_worked st) (deps pack k)) then st
    else
      let b := nth k blobs [] in
      if Nat.ltb k nl then
        match handle_leaf teqb hc (ss_world st) b with
        | Ok wr => mk_ss (ss_world st) (set_nth k (Some (Some (wr_tickets wr))) (ss_sent st))
                         (set_nth k (Some (None, TOk wr)) (ss_res st)) (ss_commands st)
        | Err e => mk_ss (ss_world st) (set_nth k (Some None) (ss_sent st))
                         (set_nth k (Some (None, TErr e)) (ss_res st)) (ss_commands st)
        end
      else
        match nth_error (p_nodes pack) (k - nl) with
        | None => st
        | Some n =>
            let h := nth (k - nl) hists [] in
            match all_some (map (sreceived nl (ss_sent st)) (n_source_indices n)) with
            | None =>
                mk_ss (ss_world st) (set_nth k (Some None) (ss_sent st))
                      (set_nth k (Some (Some (n_rule n), TCanceled)) (ss_res st)) (ss_commands st)
            | Some tickets =>
                match handle_rule teqb hc (ss_world st) b h (hl tickets) (n_command n) with
                | (Ok wr, w', script) =>
                    mk_ss w' (set_nth k (Some (Some (wr_tickets wr))) (ss_sent st))
                          (set_nth k (Some (Some (n_rule n), TOk wr)) (ss_res st)) (ss_commands st ++ script)
                | (Err e, w', script) =>
                    mk_ss w' (set_nth k (Some None) (ss_sent st))
                          (set_nth k (Some (Some (n_rule n), TErr e)) (ss_res st)) (ss_commands st ++ script)
                end
            end
        end.

  (* ---- orders ---- *)

  (* every worker once, each after the workers it waits for *)
  Fixpoint order_okb (pack : node_pack) (done : list nat) (ord : list nat) : bool :=
    match ord with
    | [] => true
    | k :: rest =>
        negb (existsb (Nat.eqb k) done) &&
        forallb (fun d => existsb (Nat.eqb d) done) (deps pack k) &&
        order_okb pack (k :: done) rest
    end.

  Definition nworkers (pack : node_pack) : nat := length (p_leaves pack) + length (p_nodes pack).

  Definition valid_orderb (pack : node_pack) (ord : list nat) : bool :=
    Nat.eqb (length ord) (nworkers pack) && forallb (fun k => Nat.ltb k (nworkers pack)) ord &&
    order_okb pack [] ord.

  Definition valid_order (pack : node_pack) (ord : list nat) : Prop := valid_orderb pack ord = true.

  Definition spawn_order (pack : node_pack) : list nat := seq 0 (nworkers pack).

  (* ---- the whole build ---- *)

  Definition build_ord (ord : list nat) (w : world) (rules_path : bytes) (goal : option bytes)
    : outcome T :=
    match init_dir T w with
    | Err f => mk_outcome (init_dir_world_on_error T w) (VFatal f) [] []
    | Ok (w1, t) =>
        match get_nodes T w1 rules_path goal with
        | Err f => mk_outcome w1 (VFatal f) [] []
        | Ok pack =>
            match read_histories w1 (p_nodes pack) with
            | None => build teqb hc hl hr w rules_path goal     (* an unreadable history file: as in Build.build *)
            | Some hists =>
                let (blobs, t') := take_blobs T hc t (worker_paths pack) in
                let n := nworkers pack in
                let st0 := mk_ss (write_table T w1 t') (repeat None n) (repeat None n) [] in
                let st1 := fold_left (work_step pack blobs hists) ord st0 in
                let results := flat_map (fun o => match o with Some r => [r] | None => [] end) (ss_res st1) in
                let js := fold_left (join_one T teqb hr) results (mk_js T (ss_world st1) t' [] []) in
                let w3 := write_table T (js_world T js) (js_table T js) in
                mk_outcome w3 (match js_errors T js with [] => VOk | es => VWorkErrors es end)
                           (ss_commands st1) (js_status T js)
            end
        end
    end.
End Sched.

Arguments mk_ss {T}.
Arguments ss_world {T}.
Arguments ss_sent {T}.
Arguments ss_res {T}.
Arguments ss_commands {T}.
Arguments sreceived {T}.
Arguments work_step {T}.
Arguments build_ord {T}.
