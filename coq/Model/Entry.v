(* Single entry point of the extracted model: one case in, one canonical ASCII line out. *)
From Coq Require Import String.
From Ruler Require Import Bytes Show Base62 Sha256 Bincode StateFiles Bundle RuleSyntax Parser TopoSort ShowRules World Work Build Ops Concrete Server Protocol Acts Sched Fine CleanFine.

(* operations as the harness writes them: names are the 43-character text forms, state files raw bytes *)
Inductive xop :=
| XWrite (p c : bytes)
| XRemove (p : bytes)
| XChmod (p : bytes) (x : bool)
| XMove (p q : bytes)
| XRmCache (name : bytes)
| XRmRuler
| XRmCacheDir
| XRmHistDir
| XRmTable
| XRmHist (name : bytes)
| XSetTable (raw : bytes)
| XSetHist (name raw : bytes)
| XBuild (goal : option bytes)
| XClean (goal : option bytes).

Definition cop_of (x : xop) : list cop :=
  match x with
  | XWrite p c => [OWrite p c]
  | XRemove p => [ORemove p]
  | XChmod p b => [OChmod p b]
  | XMove p q => [OMove p q]
  | XRmCache name => match decode62 name with Ok t => [ORmCache t] | Err _ => [] end
  | XRmRuler => [ORmRuler]
  | XRmCacheDir => [ORmCacheDir]
  | XRmHistDir => [ORmHistDir]
  | XRmTable => [ORmTable]
  | XRmHist name => match decode62 name with Ok t => [ORmHist t] | Err _ => [] end
  | XSetTable raw => [OSetTable (table_of_raw raw)]
  | XSetHist name raw => match decode62 name with Ok t => [OSetHist t (history_of_raw raw)] | Err _ => [] end
  | XBuild g => [OBuild g]
  | XClean g => [OClean g]
  end.

Inductive case :=
| CEncode62 (b : bytes)
| CDecode62 (s : bytes)
| CSha256 (m : bytes)
| CDeHistory (b : bytes)
| CDeTable (b : bytes)
| CParse (content : bytes)
| CParseAll (contents : list bytes)
| CBundle (lines : list bytes)
| CTopo (rules : list rule) (goal : option bytes)
| CRuleTicket (r : rule)
| CHistory (coarse : bool) (t0 : N) (ops : list xop)
| CCrash (with_acts : bool) (coarse : bool) (t0 : N) (ops : list xop)
| COrder (coarse : bool) (t0 : N) (ops : list xop) (goal : option bytes) (ord : list nat)
| CFine (coarse : bool) (t0 : N) (ops : list xop) (goal : option bytes) (events : list (nat * nat))
| CCleanFine (coarse : bool) (t0 : N) (ops : list xop) (goal : option bytes) (events : list nat)
| CTrace (rules_text : bytes) (goal : option bytes) (is_clean : bool) (events : list event)
| CServe (cache : list (bytes * bytes)) (hist : list (bytes * bytes)) (requests : list (list bytes)).


(* ---- crash states of the last operation of a history (Model/Acts.v) ---- *)

Definition c_run (w : cworld) (ops : list cop) : cworld := fold_left (fun w o => fst (c_apply w o)) ops w.

Definition show_state (w : cworld) : bytes := paren (lit "st" :: show_world w).

(* consecutive equal renderings are merged: an action that changes nothing (a `true` line) is no new crash state *)
Fixpoint dedup_adjacent (l : list bytes) : list bytes :=
  match l with
  | a :: ((b :: _) as rest) => if bytes_eqb a b then dedup_adjacent rest else a :: dedup_adjacent rest
  | _ => l
  end.

Definition show_act (a : act cticket) : bytes :=
  match a with
  | AMkRuler => lit "mkruler"
  | AMkCache => lit "mkcache"
  | AMkHist => lit "mkhist"
  | ANewTable => lit "newtable"
  | ABackup p t => paren [lit "backup"; show_bytes p; show_bytes (encode62 t)]
  | ARestore t p => paren [lit "restore"; show_bytes (encode62 t); show_bytes p]
  | ALine l => paren [lit "line"; show_bytes l]
  | AWriteHist r _ => paren [lit "writehist"; show_bytes (encode62 (c_hr r))]
  | AWriteTable _ => lit "writetable"
  end.

Definition show_crash_run (with_acts : bool) (mode : clock_mode) (t0 : N) (ops : list cop) : bytes :=
  match rev ops with
  | [] => lit "(nothing)"
  | last :: rprefix =>
      let w := c_run (init_world mode t0) (rev rprefix) in
      let acts :=
        match last with
        | OBuild g => Some (build_acts c_teqb c_hc c_hl c_hr w RULES_PATH g)
        | OClean g => Some (clean_acts c_teqb c_hc w RULES_PATH g)
        | _ => None
        end in
      match acts with
      | None => lit "(nothing)"
      | Some acts =>
          if with_acts then paren [lit "acts"; show_list show_act acts]
          else paren [lit "crash";
                      show_list (fun x => x) (dedup_adjacent (map show_state (crash_states c_teqb c_hr acts w)))]
      end
  end.

(* ---- a build under a given work order (Model/Sched.v) ---- *)

Definition show_order_run (mode : clock_mode) (t0 : N) (ops : list cop) (goal : option bytes) (ord : list nat) : bytes :=
  let w := c_run (init_world mode t0) ops in
  let valid :=
    match init_dir cticket w with
    | Ok (w1, _) => match get_nodes cticket w1 RULES_PATH goal with
                    | Ok pack => valid_orderb pack ord
                    | Err _ => true
                    end
    | Err _ => true
    end in
  let o := build_ord c_teqb c_hc c_hl c_hr ord w RULES_PATH goal in
  paren [lit "order"; show_bool valid; show_obs (tick (o_world o)) (Some o)].

(* ---- a build under an interleaving of the workers' cache operations (Model/Fine.v) ----
   events: (worker, kind) in the global order in which the implementation performed its operations on the cache;
   kind 0 = rename(target -> cache), 1 = is_file(cache entry), 2 = rename(cache entry -> target).
   Between two events every worker performs, eagerly, the steps that touch nothing shared. *)

Definition next_shared_kind (pack : node_pack) (blobs : list (blob cticket)) (st : fnstate cticket) (k : nat) : option nat :=
  let nl := length (p_leaves pack) in
  if Nat.ltb k nl then None
  else
    let b := nth k blobs [] in
    let ws := nth k (fn_workers st) (mk_wst cticket WDone None []) in
    match wst_phase cticket ws with
    | WResolve _ i =>
        match nth_error b i, nth_error (wst_rem cticket ws) i with
        | Some (p, assumed), Some r =>
            match get_file_ticket c_teqb c_hc (fn_world st) p assumed with
            | Some cur => if c_teqb (fs_t r) cur then None else Some 0%nat
            | None => None
            end
        | _, _ => None
        end
    | WCheck _ _ => Some 1%nat
    | WRename _ _ => Some 2%nat
    | WFresh i =>
        match nth_error b i with
        | Some (p, assumed) => match get_file_ticket c_teqb c_hc (fn_world st) p assumed with Some _ => Some 0%nat | None => None end
        | None => None
        end
    | _ => None
    end.

(* worker k makes local steps until its next step is a shared one (or it cannot move) *)
Fixpoint advance_local (fuel : nat) (pack : node_pack) (blobs : list (blob cticket)) (hists : list (history cticket))
         (st : fnstate cticket) (k : nat) : fnstate cticket :=
  match fuel with
  | O => st
  | S f =>
      match next_shared_kind pack blobs st k with
      | Some _ => st
      | None =>
          match fstep c_teqb c_hc c_hl pack blobs hists st k with
          | Some st' => advance_local f pack blobs hists st' k
          | None => st
          end
      end
  end.

Definition advance_all (rounds : nat) (pack : node_pack) (blobs : list (blob cticket)) (hists : list (history cticket))
           (st : fnstate cticket) : fnstate cticket :=
  fold_left (fun s _ => fold_left (fun s' k => advance_local 64 pack blobs hists s' k) (seq 0 (nworkers pack)) s)
            (seq 0 rounds) st.

(* returns the final state and the number of events that did not match the model's next step *)
Fixpoint replay_events (pack : node_pack) (blobs : list (blob cticket)) (hists : list (history cticket))
         (events : list (nat * nat)) (st : fnstate cticket) (bad : nat) : fnstate cticket * nat :=
  match events with
  | [] => (advance_all (S (nworkers pack)) pack blobs hists st, bad)
  | (k, kind) :: rest =>
      let st1 := advance_all (S (nworkers pack)) pack blobs hists st in
      match next_shared_kind pack blobs st1 k with
      | Some kd =>
          if Nat.eqb kd kind then
            match fstep c_teqb c_hc c_hl pack blobs hists st1 k with
            | Some st2 => replay_events pack blobs hists rest st2 bad
            | None => replay_events pack blobs hists rest st1 (S bad)
            end
          else replay_events pack blobs hists rest st1 (S bad)
      | None => replay_events pack blobs hists rest st1 (S bad)
      end
  end.

Definition show_fine_run (mode : clock_mode) (t0 : N) (ops : list cop) (goal : option bytes) (events : list (nat * nat)) : bytes :=
  let w := c_run (init_world mode t0) ops in
  match init_dir cticket w with
  | Err _ => lit "(fine noplan)"
  | Ok (w1, t) =>
      match get_nodes cticket w1 RULES_PATH goal with
      | Err _ => lit "(fine noplan)"
      | Ok pack =>
          match read_histories cticket c_teqb c_hr w1 (p_nodes pack) with
          | None => lit "(fine noplan)"
          | Some hists =>
              let (blobs, t') := take_blobs cticket c_hc t (worker_paths pack) in
              let n := nworkers pack in
              let st0 := mk_fn (write_table cticket w1 t') (repeat (mk_wst cticket WWait None []) n) (repeat None n) (repeat None n) [] in
              let (st1, bad) := replay_events pack blobs hists events st0 O in
              let results := flat_map (fun o => match o with Some r => [r] | None => [] end) (fn_res st1) in
              let js := fold_left (join_one cticket c_teqb c_hr) results (mk_js cticket (fn_world st1) t' [] []) in
              let w3 := write_table cticket (js_world cticket js) (js_table cticket js) in
              let o := mk_outcome w3 (match js_errors cticket js with [] => VOk | es => VWorkErrors es end)
                                  (sort_strs (fn_commands st1)) (js_status cticket js) in
              paren [lit "fine"; show_nat bad; show_bool (all_done st1); show_obs (tick w3) (Some o)]
          end
      end
  end.

(* clean under the order in which the implementation's clean threads moved files into the cache: an event k = "the thread
   of node k renamed its next existing target into the cache". Steps over targets that do not exist touch nothing
   shared and are performed as needed. bad = events the model's thread could not perform. *)
Fixpoint clean_advance_to_backup (fuel : nat) (blobs : list (blob cticket)) (st : cstate cticket) (k : nat) : option (cstate cticket) :=
  match fuel with
  | O => None
  | S f =>
      match cstep c_teqb c_hc blobs st k with
      | None => None
      | Some st' =>
          match nth k (cs_pos st) None, nth k (cs_pos st') None with
          | Some i, Some j =>
              (* a target was looked at: was it moved? the thread's position advanced either way; a move shows in the files *)
              match nth_error (nth k blobs []) i with
              | Some (p, _) => match fget (cs_world st) p, fget (cs_world st') p with
                               | Some _, None => Some st'
                               | _, _ => if Nat.eqb i j then None else clean_advance_to_backup f blobs st' k
                               end
              | None => None
              end
          | _, _ => None
          end
      end
  end.

Fixpoint clean_replay (blobs : list (blob cticket)) (events : list nat) (st : cstate cticket) (bad : nat) : cstate cticket * nat :=
  match events with
  | [] => (st, bad)
  | k :: rest =>
      match clean_advance_to_backup (S (length (nth k blobs []))) blobs st k with
      | Some st' => clean_replay blobs rest st' bad
      | None => clean_replay blobs rest st (S bad)
      end
  end.

Definition show_clean_fine_run (mode : clock_mode) (t0 : N) (ops : list cop) (goal : option bytes) (events : list nat) : bytes :=
  let w := c_run (init_world mode t0) ops in
  match init_dir cticket w with
  | Err _ => lit "(cleanfine noplan)"
  | Ok (w1, t) =>
      match get_nodes cticket w1 RULES_PATH goal with
      | Err _ => lit "(cleanfine noplan)"
      | Ok pack =>
          let blobs := node_blobs c_hc t (p_nodes pack) in
          let n := length blobs in
          let (st1, bad) := clean_replay blobs events (mk_cs w1 (repeat (Some O) n) (repeat None n)) O in
          let st2 := crun c_teqb c_hc blobs (cserial blobs) st1 in
          let errs := flat_map (fun o => match o with Some e => [e] | None => [] end) (cs_err st2) in
          let o := mk_outcome (cs_world st2) (match errs with [] => VOk | es => VWorkErrors es end) [] [] in
          paren [lit "cleanfine"; show_nat bad; show_bool (call_done st2); show_obs (tick (cs_world st2)) (Some o)]
      end
  end.

Definition show_dec_err (e : dec_err) : bytes :=
  match e with
  | InvalidLength => lit "InvalidLength"
  | Overflow => lit "Overflow"
  | InvalidCharacter c => paren [lit "InvalidCharacter"; show_N c]
  end.

Definition show_result {A E} (f : A -> bytes) (g : E -> bytes) (r : result A E) : bytes :=
  match r with
  | Ok a => paren [lit "ok"; f a]
  | Err e => paren [lit "err"; g e]
  end.

Definition run_case (c : case) : bytes :=
  match c with
  | CEncode62 b => show_bytes (encode62 b)
  | CDecode62 s => show_result show_bytes show_dec_err (decode62 s)
  | CSha256 m => show_bytes (sha256 m)
  | CDeHistory b => show_de_history b
  | CDeTable b => show_de_table b
  | CParse c => show_parse (parse c)
  | CParseAll cs => show_parse (parse_all cs)
  | CBundle ls => show_bundle (parse_lines ls)
  | CTopo rs g => show_toposort (toposort rs g)
  | CRuleTicket r => show_bytes (rule_ticket r)
  | CTrace text goal is_clean evs =>
      match parse text with
      | Err _ => lit "(noplan)"
      | Ok rules =>
          match toposort rules goal with
          | Err _ => lit "(noplan)"
          | Ok pack =>
              let g := if is_clean then clean_graph_of_pack pack else graph_of_pack pack in
              match first_bad g (Protocol.init_pstate g) evs O with
              | Some i => paren [lit "bad"; show_nat i]
              | None =>
                  match run_events g (Protocol.init_pstate g) evs with
                  | Some s => if finished g s then lit "(ok finished)" else lit "(ok unfinished)"
                  | None => lit "(bad)"
                  end
              end
          end
      end
  | CServe cache hist reqs =>
      let rd : rdir cticket :=
        mk_rdir true
          (Some (flat_map (fun e => match decode62 (fst e) with
                                    | Ok t => [(t, mk_file (snd e) 1 false)]
                                    | Err _ => []
                                    end) cache))
          (Some (flat_map (fun e => match decode62 (fst e) with
                                    | Ok t => [(t, history_of_raw (snd e))]
                                    | Err _ => []
                                    end) hist))
          None in
      show_list (fun r => show_response (respond rd r)) reqs
  | CCrash wa coarse t0 ops => show_crash_run wa (if coarse then Coarse else Fine) t0 (flat_map cop_of ops)
  | COrder coarse t0 ops goal ord =>
      show_order_run (if coarse then Coarse else Fine) t0 (flat_map cop_of ops) goal ord
  | CFine coarse t0 ops goal events =>
      show_fine_run (if coarse then Coarse else Fine) t0 (flat_map cop_of ops) goal events
  | CCleanFine coarse t0 ops goal events =>
      show_clean_fine_run (if coarse then Coarse else Fine) t0 (flat_map cop_of ops) goal events
  | CHistory coarse t0 ops =>
      show_history_run (if coarse then Coarse else Fine) t0 (flat_map cop_of ops)
  end.
