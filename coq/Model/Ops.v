(* The history alphabet of C01: user actions and ruler invocations, each followed by one tick of
   the clock. *)
From Ruler Require Export Bytes AList World Work Build.

Definition RULES_PATH : bytes := [98; 117; 105; 108; 100; 46; 114; 117; 108; 101; 115]. (* build.rules *)

Section Ops.
  Variable T : Type.
  Variable teqb : T -> T -> bool.
  Variable hc : bytes -> T.
  Variable hl : list T -> T.
  Variable hr : rule -> T.

  Notation world := (world T).

  Inductive op :=
  | OWrite (p c : bytes)              (* edit / revert a source, edit the rules file, tamper with a target *)
  | ORemove (p : bytes)               (* delete a file outside the ruler directory *)
  | OChmod (p : bytes) (x : bool)
  | OMove (p q : bytes)               (* mv p q: an older copy put (back) at a path keeps its modification time *)
  | ORmCache (t : T)                  (* delete one cache entry *)
  | ORmRuler                          (* delete the ruler directory *)
  | ORmCacheDir
  | ORmHistDir
  | ORmTable
  | ORmHist (t : T)                   (* delete one rule's history file *)
  | OSetTable (v : sf (table T))      (* damage (or replace) the file-state table *)
  | OSetHist (t : T) (v : sf (history T))
  | OBuild (goal : option bytes)
  | OClean (goal : option bytes).

  Definition upd_rd (w : world) (f : rdir T -> rdir T) : world := set_rd w (f (w_rd w)).

  Definition apply_op (w : world) (o : op) : world * option (outcome T) :=
    let user (w' : world) := (tick w', None) in
    match o with
    | OWrite p c => user (write_file w p c)
    | ORemove p => user (remove_file w p)
    | OChmod p x => user (set_exec w p x)
    | OMove p q => user (move_file w p q)
    | ORmCache t =>
        user (upd_rd w (fun rd => mk_rdir (rd_exists rd)
                                    (match rd_cache rd with Some c => Some (aremove teqb c t) | None => None end)
                                    (rd_hist rd) (rd_table rd)))
    | ORmRuler => user (set_rd w no_rdir)
    | ORmCacheDir => user (upd_rd w (fun rd => mk_rdir (rd_exists rd) None (rd_hist rd) (rd_table rd)))
    | ORmHistDir => user (upd_rd w (fun rd => mk_rdir (rd_exists rd) (rd_cache rd) None (rd_table rd)))
    | ORmTable => user (upd_rd w (fun rd => mk_rdir (rd_exists rd) (rd_cache rd) (rd_hist rd) None))
    | ORmHist t =>
        user (upd_rd w (fun rd => mk_rdir (rd_exists rd) (rd_cache rd)
                                    (match rd_hist rd with Some h => Some (aremove teqb h t) | None => None end)
                                    (rd_table rd)))
    | OSetTable v =>
        user (upd_rd w (fun rd => if rd_exists rd then mk_rdir true (rd_cache rd) (rd_hist rd) (Some v) else rd))
    | OSetHist t v =>
        user (upd_rd w (fun rd => mk_rdir (rd_exists rd) (rd_cache rd)
                                    (match rd_hist rd with Some h => Some (ainsert teqb h t v) | None => None end)
                                    (rd_table rd)))
    | OBuild goal =>
        let o := build teqb hc hl hr w RULES_PATH goal in (tick (o_world o), Some o)
    | OClean goal =>
        let o := clean teqb hc w RULES_PATH goal in (tick (o_world o), Some o)
    end.

  Definition init_world (mode : clock_mode) (t0 : N) : world := mk_world [] no_rdir t0 mode.
End Ops.

Arguments OWrite {T}.
Arguments ORemove {T}.
Arguments OChmod {T}.
Arguments OMove {T}.
Arguments ORmCache {T}.
Arguments ORmRuler {T}.
Arguments ORmCacheDir {T}.
Arguments ORmHistDir {T}.
Arguments ORmTable {T}.
Arguments ORmHist {T}.
Arguments OSetTable {T}.
Arguments OSetHist {T}.
Arguments OBuild {T}.
Arguments OClean {T}.
Arguments apply_op {T}.
Arguments init_world {T}.
